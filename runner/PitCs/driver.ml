(* runner/PitCs/driver.ml — replays the harness trace (harness/pitcs) on the extracted Coq model of the PIT-CS table and
   evaluates the extracted spec oracles of C07 (Spec.c_judge, c_same_content over the spec cache) and C08
   (Spec.c08_always / c08_quiescent) on the IMPLEMENTATION's observations.

   Output:
     DIVERGE <case> <gen#> <what> model=<..> impl=<..>         model and implementation disagree (first per case)
     ORACLE <C07|C08> <case> <gen#> <signature> <detail>       the implementation's observation violates the spec
     BADLINE <lineno> <text>
     DONE <lines> cases=<n> ops=<n>                                                                                *)
open Pitcs_model

let rec pos_of_int (i : int) : positive =
  if i = 1 then XH else if i land 1 = 0 then XO (pos_of_int (i lsr 1)) else XI (pos_of_int (i lsr 1))
let n_of_int (i : int) : n = if i = 0 then N0 else Npos (pos_of_int i)
let z_of_int (i : int) : z = if i = 0 then Z0 else if i > 0 then Zpos (pos_of_int i) else Zneg (pos_of_int (-i))
let rec int_of_pos = function XH -> 1 | XO p -> 2 * int_of_pos p | XI p -> 2 * int_of_pos p + 1
let int_of_n = function N0 -> 0 | Npos p -> int_of_pos p
let int_of_z = function Z0 -> 0 | Zpos p -> int_of_pos p | Zneg p -> - (int_of_pos p)
let rec int_of_nat = function O -> 0 | S k -> 1 + int_of_nat k

let n10 = n_of_int 10
let n_of_dec (s : string) : n =
  let acc = ref N0 in
  String.iter (fun c -> acc := N.add (N.mul !acc n10) (n_of_int (Char.code c - 48))) s; !acc

let name_of_string (s : string) : name =
  if s = "-" then [] else List.map (fun x -> n_of_int (int_of_string x)) (String.split_on_char '.' s)
let string_of_name (n : name) : string =
  if n = [] then "-" else String.concat "." (List.map (fun x -> string_of_int (int_of_n x)) n)
let opt_n s = if s = "-" then None else Some (n_of_int (int_of_string s))
let ms_ns = function None -> None | Some x -> Some (N.mul x (n_of_int 1000000))
let b01 b = if b then "1" else "0"

(* ---- canonical state string of the model (same format as harness dumpState) ---- *)
let faces_str l =
  if l = [] then "-" else String.concat "+" (List.map string_of_int (List.sort compare l))

let model_string (s : st) : string =
  let node_str nd =
    let es = List.map (fun e ->
      Printf.sprintf "%s%s,%s,%s,%s,%s,%d" (b01 e.p_cbp) (b01 e.p_mbf)
        (faces_str (List.map (fun r -> int_of_n r.i_face) e.p_ins))
        (faces_str (List.map (fun r -> int_of_n r.o_face) e.p_outs))
        (b01 e.p_sat) (b01 e.p_q) (int_of_z e.p_exp)) nd.n_pit in
    let es = List.sort compare es in
    let base = string_of_name nd.n_path in
    let base = if es = [] then base else base ^ "{" ^ String.concat ";" es ^ "}" in
    match nd.n_cs with
    | Some e -> base ^ Printf.sprintf "[%d,%d]" (int_of_n e.cs_wire) (int_of_z e.cs_stale)
    | None -> base in
  let ns = List.sort compare (List.map node_str s.nodes) in
  Printf.sprintf "npit=%d ncs=%d apit=%d acs=%d tpit=%d tcs=%d tok=%d heap=%d csmap=%d lruq=%s locs=%d dnl=%d dnlq=%d broken=- nodes=%s"
    (int_of_z s.npit) (int_of_z s.ncs) (int_of_z s.npit) (int_of_z s.ncs) (int_of_z s.npit) (int_of_z s.ncs) (List.length s.tokmap) (List.length s.heap) (List.length s.csmap)
    (Printf.sprintf "%d:%s" (List.length s.lruq) (String.concat ";" (List.map string_of_name s.lruq)))
    (List.length s.locs) (List.length s.dnl) (List.length s.dnlq) (String.concat "|" ns)

(* ---- parsing of the implementation's dump ---- *)
type ientry = { e_q : bool; e_exp : int; e_norec : bool; e_flags : string }
type inode = { i_path : name; i_entries : ientry list; i_cs : (int * int) option }
type idump = { f : (string * string) list; inodes : inode list }

let parse_node (s : string) : inode =
  (* path{e;e}[w,stale] *)
  let cs, rest =
    match String.index_opt s '[' with
    | Some i ->
      let body = String.sub s (i + 1) (String.length s - i - 2) in
      (match String.split_on_char ',' body with
       | [w; st] -> Some (int_of_string w, int_of_string st)
       | _ -> failwith "cs"), String.sub s 0 i
    | None -> None, s in
  let entries, path =
    match String.index_opt rest '{' with
    | Some i ->
      let body = String.sub rest (i + 1) (String.length rest - i - 2) in
      List.map (fun e ->
        match String.split_on_char ',' e with
        | [fl; ins; outs; _; q; ex] -> { e_q = (q = "1"); e_exp = int_of_string ex; e_norec = (ins = "-" && outs = "-"); e_flags = fl }
        | _ -> failwith "entry") (String.split_on_char ';' body), String.sub rest 0 i
    | None -> [], rest in
  { i_path = name_of_string path; i_entries = entries; i_cs = cs }

let parse_dump (s : string) : idump =
  let fields = List.filter_map (fun kv ->
    match String.index_opt kv '=' with
    | Some i -> Some (String.sub kv 0 i, String.sub kv (i + 1) (String.length kv - i - 1))
    | None -> None) (String.split_on_char ' ' s) in
  let nodes = try List.assoc "nodes" fields with Not_found -> "" in
  { f = fields; inodes = List.map parse_node (String.split_on_char '|' nodes) }

let fld d k = try List.assoc k d.f with Not_found -> "?"
let fldi d k = try int_of_string (fld d k) with _ -> -1

let coq_dump (now : int) (d : idump) : dump =
  { d_now = z_of_int now; d_npit = z_of_int (fldi d "npit"); d_ncs = z_of_int (fldi d "ncs"); d_tok = z_of_int (fldi d "tok");
    d_heap = z_of_int (fldi d "heap"); d_csmap = z_of_int (fldi d "csmap");
    d_lruq = (let q = fld d "lruq" in
              let i = String.index q ':' in
              let body = String.sub q (i + 1) (String.length q - i - 1) in
              if String.sub q 0 i = "0" then [] else List.map name_of_string (String.split_on_char ';' body));
    d_locs = z_of_int (fldi d "locs"); d_dnl = z_of_int (fldi d "dnl"); d_dnlq = z_of_int (fldi d "dnlq");
    d_nodes = List.map (fun nd -> { dn_path = nd.i_path;
                                    dn_ents = List.map (fun e -> { de_q = e.e_q; de_norec = e.e_norec; de_exp = z_of_int e.e_exp }) nd.i_entries;
                                    dn_cs = (nd.i_cs <> None) }) d.inodes }

let impl_cache (d : idump) : csent list =
  List.filter_map (fun nd -> match nd.i_cs with
    | Some (w, st) -> Some { cs_name = nd.i_path; cs_wire = n_of_int w; cs_stale = z_of_int st }
    | None -> None) d.inodes

(* first differing field between two canonical strings *)
let first_diff (m : string) (i : string) : string =
  let fm = String.split_on_char ' ' m and fi = String.split_on_char ' ' i in
  let rec go a b = match a, b with
    | x :: a', y :: b' -> if x = y then go a' b' else
        let cut s = if String.length s > 700 then String.sub s 0 700 ^ "..." else s in
        (* for nodes show the first differing node *)
        if String.length x > 6 && String.sub x 0 6 = "nodes=" && String.length y > 6 then begin
          let nx = String.split_on_char '|' (String.sub x 6 (String.length x - 6))
          and ny = String.split_on_char '|' (String.sub y 6 (String.length y - 6)) in
          let only l r = List.filter (fun e -> not (List.mem e r)) l in
          Printf.sprintf "nodes model-only=%s impl-only=%s" (cut (String.concat "|" (only nx ny))) (cut (String.concat "|" (only ny nx)))
        end else Printf.sprintf "%s model=%s impl=%s" (List.hd (String.split_on_char '=' x)) (cut x) (cut y)
    | [], [] -> "?"
    | _ -> "field-count" in
  go fm fi

let () =
  let lineno = ref 0 and ncases = ref 0 and nops = ref 0 in
  let case = ref "-" and gen = ref 0 in
  let model = ref (init Z0 N0 true true Z0) in
  let spec = ref (c_init Z0 N0) in
  let admit = ref true in
  let diverged = ref false in
  let loop_mode = ref false in
  let dnl_next = ref 0 in
  let dnl_ambiguous = ref false in
  let last_model_s = ref "" and last_impl_s = ref "" in
  let quiescent = ref false in
  let last_tick = ref 0 in
  let last_op = ref "" in
  let deadline : (string, int) Hashtbl.t = Hashtbl.create 64 in
  let stats : (string, int) Hashtbl.t = Hashtbl.create 32 in
  let stat k = Hashtbl.replace stats k (1 + (try Hashtbl.find stats k with Not_found -> 0)) in
  let last_int_key : (name * bool * bool) option ref = ref None in
  let last_found : csent option ref = ref None in
  let pending_find : (name * bool * bool * csent list) option ref = ref None in
  let pending_int : (int * name * bool * bool * int * csent list * int list) option ref = ref None in
  let contains s sub = (try ignore (Str.search_forward (Str.regexp_string sub) s 0); true with Not_found -> false) in
  let diverge what =
    if not !diverged then begin
      diverged := true;
      (* after an ambiguous sweep a difference in the dead nonce list is the unmodelled tie order, not a disagreement *)
      if !dnl_ambiguous && (contains what "dnl model=" || contains what "dnlq model=" || contains what "kind 1" || contains what "model drops (kind 1)")
      then stat "dnl_tie_difference_observed"
      else Printf.printf "DIVERGE %s %d %s\n" !case !gen what
    end in
  let oracle pid sg detail = Printf.printf "ORACLE %s %s %d %s %s\n" pid !case !gen sg detail in
  let apply o = let (s', r) = step !model o in model := s'; r in
  let nowi () = int_of_z (!model).now in
  let check_state (impl_s : string) =
    let ms = model_string !model in
    last_model_s := ms; last_impl_s := impl_s;
    if ms <> impl_s then diverge ("state after [" ^ !last_op ^ "]: " ^ first_diff ms impl_s);
    let d = parse_dump impl_s in
    (* C07: the implementation caches exactly what the spec cache holds *)
    let ic = impl_cache d in
    if not (c_same_content !spec ic) then begin
      let capn = (if N.ltb (!spec).c_cap (n_of_int 1000000000) then int_of_n (!spec).c_cap else 1000000000) in
      let names l = String.concat ";" (List.sort compare (List.map (fun e -> Printf.sprintf "%s[%d,%d]" (string_of_name e.cs_name) (int_of_n e.cs_wire) (int_of_z e.cs_stale)) l)) in
      let is_insert = String.length !last_op >= 3 && (String.sub !last_op 0 3 = "ins" || String.sub !last_op 0 3 = "dat") in
      let sg = if is_insert && List.length ic > capn && List.length ic > List.length (!spec).c_list then "over-capacity"
               else if List.length ic = List.length (!spec).c_list then "wrong-victim-or-content" else "cache-content" in
      oracle "C07" sg (Printf.sprintf "after=[%s] cap=%d impl={%s} spec={%s}" !last_op capn (names ic) (names (!spec).c_list));
      (* resynchronise the spec on the implementation so that one defect is reported once per case *)
      spec := { !spec with c_list = List.filter (fun e -> List.exists (fun x -> x.cs_name = e.cs_name) ic) (!spec).c_list }
    end;
    if fld d "broken" <> "-" then oracle "C08" "broken-structure" (fld d "broken");
    (* the sizes production reads (PitSize/CsSize, Thread.GetNumPitEntries/GetNumCsEntries) are the true numbers of entries *)
    (let true_pit = List.fold_left (fun a nd -> a + List.length nd.i_entries) 0 d.inodes
     and true_cs = List.length (List.filter (fun nd -> nd.i_cs <> None) d.inodes) in
     List.iter (fun (k, v) -> if fldi d k <> v then
                   oracle "C08" ("reported-size:" ^ k) (Printf.sprintf "after=[%s] %s=%s but the table holds %d" !last_op k (fld d k) v))
       [("apit", true_pit); ("tpit", true_pit); ("acs", true_cs); ("tcs", true_cs)]);
    let cd = coq_dump (nowi ()) d in
    List.iter (fun c -> oracle "C08" (Printf.sprintf "always:%d" (int_of_n c))
                  (Printf.sprintf "after=[%s] npit=%s ncs=%s tok=%s heap=%s csmap=%s lruq=%s locs=%s dnl=%s dnlq=%s" !last_op
                     (fld d "npit") (fld d "ncs") (fld d "tok") (fld d "heap") (fld d "csmap") (fld d "lruq") (fld d "locs") (fld d "dnl") (fld d "dnlq")))
      (c08_always cd);
    (* latest lifetime among the Interests received for an entry (an upper bound of what is recorded in it): once it has
       elapsed the next Update() must have removed the entry *)
    let present = List.concat_map (fun nd -> List.map (fun e -> string_of_name nd.i_path ^ "|" ^ e.e_flags) nd.i_entries) d.inodes in
    Hashtbl.filter_map_inplace (fun k v -> if List.mem k present then Some v else None) deadline;
    if !last_op = "tick" || !loop_mode then
      List.iter (fun k -> match Hashtbl.find_opt deadline k with
          | Some dl when (if !loop_mode then dl + 100000000 <= nowi () && String.length !last_op >= 5 && String.sub !last_op 0 5 = "sleep" else dl <= nowi ()) ->
            oracle "C08" "outlived-lifetime" (Printf.sprintf "entry %s still present %s at %d although the latest lifetime of the Interests received for it ended at %d" k (if !loop_mode then "after the forwarding thread's own loop ran (more than a reaper period later)" else "after Update()") (nowi ()) dl);
            Hashtbl.remove deadline k
          | _ -> ()) present;
    if !last_op = "tick" then
      List.iter (fun nd -> List.iter (fun e ->
        if e.e_q && e.e_exp <= nowi () then
          oracle "C08" "overdue-after-update" (Printf.sprintf "entry at %s expired at %d still present after Update() at %d" (string_of_name nd.i_path) e.e_exp (nowi ()))) nd.i_entries) d.inodes;
    if !quiescent then begin
      quiescent := false;
      List.iter (fun c -> oracle "C08" (Printf.sprintf "quiescent:%d" (int_of_n c))
                    (Printf.sprintf "npit=%s tok=%s heap=%s dnl=%s nodes=%s" (fld d "npit") (fld d "tok") (fld d "heap") (fld d "dnl")
                       (let s = fld d "nodes" in if String.length s > 600 then String.sub s 0 600 ^ "..." else s)))
        (c08_quiescent cd)
    end in
  (try
    while true do
      let line = input_line stdin in
      incr lineno;
      match String.split_on_char ' ' line with
      | "case" :: k :: _ -> case := k; gen := 0; incr ncases; diverged := false; dnl_ambiguous := false; quiescent := false; Hashtbl.reset deadline;
          last_model_s := ""; last_impl_s := ""; pending_find := None; pending_int := None
      | "gen" :: _ -> incr gen
      | ["op"; "init"; t0; c; sv; ad; life] ->
          let t0 = int_of_string t0 in
          model := init (z_of_int t0) (n_of_int (int_of_string c)) (sv = "1") (ad = "1") (z_of_int (int_of_string life));
          spec := c_init (z_of_int t0) (n_of_int (int_of_string c));
          admit := (ad = "1"); last_tick := t0; last_op := "init"; loop_mode := false;
          dnl_next := t0 + int_of_z gen_dnl_tick_ms * 1000000
      | ["op"; "adv"; d] ->
          incr nops;
          let d = int_of_string d in
          if nowi () + d > int_of_z (!model).timer_at then
            diverge (Printf.sprintf "timer: model expects the update signal at %d, implementation ran on to %d without it" (int_of_z (!model).timer_at) (nowi () + d));
          ignore (apply (OAdv (n_of_int d)));
          spec := c_adv !spec (n_of_int d);
          if nowi () - !last_tick > 100000000 then begin
            oracle "C08" "update-signal-late" (Printf.sprintf "no Update() for %d ns (more than the 100 ms reaper period)" (nowi () - !last_tick));
            last_tick := nowi ()
          end;
          last_op := "adv"
      | ["op"; "sleep"; d] ->
          (* the real Thread.Run loop served its timers itself; the model's loop does the same: the PIT update signal at timer_at,
             the DNL ticker every gen_dnl_tick_ms since the thread was created (the two commute when due at the same instant) *)
          incr nops; loop_mode := true;
          let target = nowi () + int_of_string d in
          let period = int_of_z gen_dnl_tick_ms * 1000000 in
          let continue = ref true in
          while !continue do
            let tn = min (int_of_z (!model).timer_at) !dnl_next in
            if tn <= target then begin
              let dd = tn - nowi () in
              if dd > 0 then (ignore (apply (OAdv (n_of_int dd))); spec := c_adv !spec (n_of_int dd));
              if int_of_z (!model).timer_at = nowi () then (ignore (apply OTick); last_tick := nowi (); stat "loop_tick");
              if !dnl_next = nowi () then (ignore (apply ODnl); dnl_next := !dnl_next + period; stat "loop_dnl")
            end else begin
              let dd = target - nowi () in
              if dd > 0 then (ignore (apply (OAdv (n_of_int dd))); spec := c_adv !spec (n_of_int dd));
              continue := false
            end
          done;
          last_op := "sleep " ^ d
      | ["op"; "cap"; c] ->
          incr nops;
          ignore (apply (OCap (z_of_int (int_of_string c)))); spec := c_setcap !spec (z_of_int (int_of_string c)); last_op := "cap " ^ c
      | ["op"; "mcap"; u] ->
          incr nops;
          ignore (apply (OMgmtCap (n_of_dec u))); spec := c_mgmtcap !spec (n_of_dec u); last_op := "mcap " ^ u;
          stat (if String.length u > 18 then "mgmt_capacity_out_of_range" else "mgmt_capacity")
      | ["op"; "rmstale"; n] ->
          incr nops;
          (* the handle's entry is in no node: allocation number 0 is never live *)
          ignore (apply (OStaleRemove (N0, name_of_string n))); last_op := "rmstale " ^ n; stat "remove_stale_handle"
      | ["obs"; "rmstale"; r] ->
          if r <> "0" then begin
            oracle "C08" "stale-remove-true" (Printf.sprintf "RemoveInterest on an entry that is no longer in the table returned true (after [%s])" !last_op);
            oracle "C07" "stale-remove-true" (Printf.sprintf "RemoveInterest on an entry that is no longer in the table returned true (after [%s])" !last_op)
          end
      | ["op"; "ins"; n; w; f] ->
          incr nops;
          let nn = name_of_string n and w' = n_of_int (int_of_string w) and f' = ms_ns (opt_n f) in
          let before = List.length (!spec).c_list in
          let known = List.exists (fun e -> e.cs_name = nn) (!spec).c_list in
          ignore (apply (OIns (nn, w', f'))); spec := c_insert !spec nn w' f'; last_op := "ins " ^ n;
          stat (if known then "insert_refresh" else if List.length (!spec).c_list <= before then "insert_new_evicting" else "insert_new")
      | ["op"; "find"; n; cbp; mbf] ->
          incr nops;
          let nn = name_of_string n in
          (match apply (OFind (nn, cbp = "1", mbf = "1")) with
           | RFind c -> pending_find := Some (nn, cbp = "1", mbf = "1", c);
               stat (Printf.sprintf "find_%s%s_%s" (if cbp = "1" then "prefix" else "exact") (if mbf = "1" then "_mustbefresh" else "")
                       (match c with [] -> "miss" | [_] -> "hit" | _ -> "hit_several_admissible"))
           | _ -> ());
          last_op := Printf.sprintf "find %s cbp=%s mbf=%s" n cbp mbf
      | ["obs"; "capacity"; c] ->
          (* the capacity in force after a cs/config management command (table.CsCapacity()) against what the command asked for *)
          let want = (!spec).c_cap in
          let got = (if String.length c > 18 then 4000000000000000000 else int_of_string c) in
          let want_i = (if N.ltb want (n_of_int 1000000000) then int_of_n want else -1) in
          if (want_i >= 0 && got <> want_i) || (want_i < 0 && got < 1000000000) then
            oracle "C07" "mgmt-capacity-not-applied" (Printf.sprintf "after [%s] through cs/config the capacity in force is %d" !last_op got)
      | ["obs"; "exactpit"; b] ->
          (* FindInterestExactMatchEnc right after the Interest was processed: an entry (name, CanBePrefix, MustBeFresh) exists iff the model has one *)
          (match !last_int_key with
           | Some (nn, c, m) ->
             let has = List.exists (fun nd -> nd.n_path = nn && List.exists (fun e -> e.p_cbp = c && e.p_mbf = m) nd.n_pit) (!model).nodes in
             if has <> (b = "1") then diverge (Printf.sprintf "FindInterestExactMatchEnc %s: implementation %s, model %b" (string_of_name nn) b has)
           | None -> ())
      | "obs" :: "apibad" :: rest ->
          oracle "C07" "accessor-mismatch" (String.concat " " rest); oracle "C08" "accessor-mismatch" (String.concat " " rest)
      | ["obs"; "stale"; t] ->
          (match !last_found with
           | Some e -> if int_of_z e.cs_stale <> int_of_string t then
               oracle "C07" "accessor-mismatch" (Printf.sprintf "CsEntry.StaleTime() = %s but the entry turns stale at %d" t (int_of_z e.cs_stale))
           | None -> ())
      | "obs" :: "find" :: rest ->
          (match !pending_find with
           | None -> Printf.printf "BADLINE %d obs find without op\n" !lineno
           | Some (nn, cbp, mbf, cands) ->
             pending_find := None;
             let r = match rest with
               | ["none"] -> None
               | [m; w] -> Some (name_of_string m, n_of_int (int_of_string w))
               | _ -> Some ([n_of_int 999999], N0) in
             let cs l = String.concat ";" (List.map (fun e -> string_of_name e.cs_name ^ ":" ^ string_of_int (int_of_n e.cs_wire)) l) in
             (match r with
              | None -> if cands <> [] then diverge (Printf.sprintf "find %s: implementation nil, model admits {%s}" (string_of_name nn) (cs cands))
              | Some (m, w) ->
                if not (List.exists (fun e -> e.cs_name = m && e.cs_wire = w) cands) then
                  diverge (Printf.sprintf "find %s: implementation returned %s:%d, model admits {%s}" (string_of_name nn) (string_of_name m) (int_of_n w) (cs cands)));
             last_found := (match r with Some (m, _) -> List.find_opt (fun e -> e.cs_name = m) (!spec).c_list | None -> None);
             let j = int_of_n (c_judge !spec nn cbp mbf r) in
             if j <> 0 then
               oracle "C07" (Printf.sprintf "lookup:%d" j)
                 (Printf.sprintf "lookup %s cbp=%s mbf=%s answered %s" (string_of_name nn) (b01 cbp) (b01 mbf) (String.concat " " rest))
             else if (not cbp) && r <> None then spec := fst (c_exact !spec nn mbf))
      | ["op"; "int"; face; n; cbp; mbf; nonce; life; sent] ->
          incr nops;
          let nn = name_of_string n in
          let sl = if sent = "-" then [] else List.map int_of_string (String.split_on_char ',' sent) in
          (match apply (OInterest (n_of_int (int_of_string face), nn, cbp = "1", mbf = "1", n_of_int (int_of_string nonce),
                                   ms_ns (opt_n life), List.map n_of_int sl)) with
           | RInt (k, c) -> pending_int := Some (int_of_string face, nn, cbp = "1", mbf = "1", int_of_n k, c, sl);
               last_int_key := Some (nn, cbp = "1", mbf = "1");
               stat (match int_of_n k with 1 -> "interest_dead_nonce" | 2 -> "interest_duplicate_nonce" | 3 -> "interest_cache_hit"
                                         | _ -> if sl = [] then "interest_not_forwarded" else if List.length sl > 1 then "interest_forwarded_multi" else "interest_forwarded")
           | _ -> ());
          (let k = n ^ "|" ^ cbp ^ mbf in
           let l = (match opt_n life with Some x -> int_of_n x * 1000000 | None -> 4000000000) in
           let dl = nowi () + l in
           match Hashtbl.find_opt deadline k with
           | Some old when old >= dl -> ()
           | _ -> Hashtbl.replace deadline k dl);
          last_op := Printf.sprintf "int face=%s %s cbp=%s mbf=%s nonce=%s life=%s sent=%s" face n cbp mbf nonce life sent
      | ["obs"; "int"; dt] ->
          (match !pending_int with
           | None -> Printf.printf "BADLINE %d obs int without op\n" !lineno
           | Some (face, nn, cbp, mbf, k, cands, sl) ->
             pending_int := None;
             let datas = if dt = "-" then [] else
                 List.map (fun x -> match String.split_on_char ':' x with
                     | [f; m; w] -> (int_of_string f, name_of_string m, n_of_int (int_of_string w))
                     | _ -> (0, [], N0)) (String.split_on_char ',' dt) in
             (match k, datas with
              | 3, [(f, m, w)] ->
                if f <> face || not (List.exists (fun e -> e.cs_name = m && e.cs_wire = w) cands) then
                  diverge (Printf.sprintf "interest %s: cache answer %s differs from the model's admissible set" (string_of_name nn) dt)
              | 3, _ -> diverge (Printf.sprintf "interest %s: model answers from the cache, implementation sent %s" (string_of_name nn) dt)
              | _, [] -> if (k = 1 || k = 2) && sl <> [] then diverge (Printf.sprintf "interest %s: model drops (kind %d) but implementation forwarded" (string_of_name nn) k)
              | _, _ -> diverge (Printf.sprintf "interest %s: implementation answered %s, model kind %d" (string_of_name nn) dt k));
             (* C07 end to end: a cache answer goes to the requesting face only, is judged like a lookup, and suppresses forwarding *)
             List.iter (fun (f, m, w) ->
               if f <> face then oracle "C07" "hit-to-other-face" (Printf.sprintf "interest %s from face %d answered on face %d" (string_of_name nn) face f);
               let j = int_of_n (c_judge !spec nn cbp mbf (Some (m, w))) in
               if j <> 0 then oracle "C07" (Printf.sprintf "pipeline-lookup:%d" j)
                   (Printf.sprintf "interest %s cbp=%s mbf=%s answered with %s" (string_of_name nn) (b01 cbp) (b01 mbf) dt)
               else if not cbp then spec := fst (c_exact !spec nn mbf)) datas;
             if datas <> [] && sl <> [] then oracle "C07" "hit-and-forwarded" (Printf.sprintf "interest %s answered from the cache and also sent upstream" (string_of_name nn)))
      | ["op"; "data"; n; w; f; tok] ->
          incr nops;
          let nn = name_of_string n and w' = n_of_int (int_of_string w) and f' = ms_ns (opt_n f) in
          let t = if tok = "-" then None else if tok = "bad" then Some N0 else
              (match String.split_on_char ':' tok with
               | [en; c; m] ->
                 (* the entry's allocation number in the model *)
                 (match List.find_opt (fun nd -> nd.n_path = name_of_string en) (!model).nodes with
                  | Some nd -> (match List.find_opt (fun e -> b01 e.p_cbp = c && b01 e.p_mbf = m) nd.n_pit with
                      | Some e -> Some e.p_id | None -> diverge ("data: token of an entry the model does not have: " ^ tok); Some N0)
                  | None -> diverge ("data: token of an entry the model does not have: " ^ tok); Some N0)
               | _ -> Some N0) in
          (let m = List.length (List.filter (fun e -> e.p_sat) (List.concat_map (fun nd -> nd.n_pit) (!model).nodes)) in
           ignore (apply (OData (nn, w', f', t)));
           let m' = List.length (List.filter (fun e -> e.p_sat) (List.concat_map (fun nd -> nd.n_pit) (!model).nodes)) in
           stat (if m' - m > 1 then "data_satisfies_several" else if m' - m = 1 then "data_satisfies_one" else "data_unsolicited_or_repeat"));
          if !admit then spec := c_insert !spec nn w' f';
          last_op := Printf.sprintf "data %s tok=%s" n tok
      | ["op"; "tick"] ->
          incr nops;
          if int_of_z (!model).timer_at <> nowi () then
            diverge (Printf.sprintf "timer: update signal served at %d, model expects it at %d" (nowi ()) (int_of_z (!model).timer_at));
          let nb = List.length (!model).heap in
          ignore (apply OTick); last_tick := nowi (); last_op := "tick";
          if List.length (!model).heap < nb then stat "tick_reaping" else stat "tick_idle"
      | ["op"; "dnl"] -> incr nops;
          (* more than 100 records due and the 100th and 101st have the same expiry: which ones RemoveExpiredEntries pops is
             decided by container/heap's tie order, which the model does not reproduce; sizes still agree, contents may not,
             so model/implementation comparison stops for this history (the spec oracles go on) *)
          (let due = List.filter (fun x -> int_of_z (snd x) < nowi ()) (!model).dnlq in
           let pr = List.sort compare (List.map (fun x -> int_of_z (snd x)) due) in
           if List.length pr > 100 && List.nth pr 99 = List.nth pr 100 && not !dnl_ambiguous then begin
             stat "dnl_tie_ambiguous_history"; dnl_ambiguous := true end);
          let nb = List.length (!model).dnl in
          ignore (apply ODnl); last_op := "dnl";
          let d = nb - List.length (!model).dnl in
          if d >= 100 then stat "dnl_sweep_full_batch" else if d > 0 then stat "dnl_sweep_partial" else stat "dnl_sweep_idle"
      | "obs" :: "st" :: _ -> check_state (String.sub line 7 (String.length line - 7))
      | ["obs"; "same"] ->
          (* implementation's dump equals its previous one *)
          check_state !last_impl_s
      | "obs" :: "panic" :: rest ->
          let kind = (match String.split_on_char ' ' !last_op with k :: _ -> k | [] -> "?") in
          oracle "C07" ("panic:" ^ kind) (Printf.sprintf "the implementation panicked during the operation after [%s]: %s" !last_op (String.concat " " rest));
          oracle "C08" ("panic:" ^ kind) (Printf.sprintf "the implementation panicked during the operation after [%s]: %s" !last_op (String.concat " " rest));
          diverged := true
      | "obs" :: "collide" :: a :: b :: rest ->
          let d = Printf.sprintf "components %s and %s of this history (%s) are different but Component.Hash() gives them the same 64-bit hash: the name-tree children map conflates them" a b (String.concat " vs " rest) in
          oracle "C07" "component-hash-collision" d; oracle "C08" "component-hash-collision" d
      | ["quiescent"] -> quiescent := true; stat "quiescent_dumps"
      | ["end"] -> ()
      | [""] | [] -> ()
      | _ -> Printf.printf "BADLINE %d %s\n" !lineno line
    done
  with End_of_file -> ());
  Hashtbl.iter (fun k v -> Printf.printf "STAT %s %d\n" k v) stats;
  Printf.printf "DONE %d cases=%d ops=%d\n" !lineno !ncases !nops
