(* runner/Codec/driver.ml — replays the codec harness trace (C13, C04) on the extracted Coq model.
   Input lines, fields separated by single spaces ("-" = empty):
     E <pkg> <model> <value> <hex> <enclen>
         the implementation encoded <value> (fields of the top struct, S(...)) to <hex>, announcing <enclen> bytes
     D <pkg> <model> <ic 0|1> <B|W> <seg|seg|..> <result> <aux> <expect> <tag>
         the implementation parsed the bytes (B: BufferReader on the joined bytes, W: WireReader on the segments);
         result = ok:<value> | err | panic | timeout | oom ; aux = ctx/cov of the parsing context or "-";
         expect = "-" | "rt:<value>" (must decode to value if value is in the wire domain) | "same:<value>" | "err"
     R <B|W> <seg|seg|..> <op,arg;op,arg;...> <obs;obs;...>     reader-operation script and the observations
   Output: "DIVERGE <lineno> <kind> model=<..> impl=<..>" (model and implementation disagree),
           "ORACLE <lineno> <kind> <detail>" (the implementation violates the property's statement on this input),
           "STAT <key> <n>" and a final "DONE <lines>". *)
open Codec_model

let rec pos_of_int (i : int) : positive =
  if i = 1 then XH else if i land 1 = 0 then XO (pos_of_int (i lsr 1)) else XI (pos_of_int (i lsr 1))
let n_of_int (i : int) : n = if i = 0 then N0 else Npos (pos_of_int i)
let rec int_of_pos = function XH -> 1 | XO p -> 2 * int_of_pos p | XI p -> 2 * int_of_pos p + 1
let int_of_n = function N0 -> 0 | Npos p -> int_of_pos p
let rec nat_of_int (i : int) : nat = if i <= 0 then O else S (nat_of_int (i - 1))
let rec int_of_nat = function O -> 0 | S n -> 1 + int_of_nat n
let n10 = n_of_int 10
let n_of_dec (s : string) : n =
  let acc = ref N0 in
  String.iter (fun c -> acc := N.add (N.mul !acc n10) (n_of_int (Char.code c - 48))) s; !acc
let rec dec_of_n (x : n) : string =
  if N.ltb x n10 then string_of_int (int_of_n x)
  else dec_of_n (N.div x n10) ^ string_of_int (int_of_n (N.modulo x n10))
let dec_of_z (z : z) : string = match z with Z0 -> "0" | Zpos p -> dec_of_n (Npos p) | Zneg p -> "-" ^ dec_of_n (Npos p)

let byte_tab = Array.init 256 n_of_int
let bytes_of_hex (h : string) : n list =
  let l = String.length h / 2 in
  List.init l (fun i -> byte_tab.(int_of_string ("0x" ^ String.sub h (2*i) 2)))
let hex_of_bytes (b : n list) : string =
  let buf = Buffer.create 64 in
  List.iter (fun x -> Buffer.add_string buf (Printf.sprintf "%02x" ((int_of_n x) land 255))) b;
  Buffer.contents buf
let unhexf h = if h = "-" then "" else h
let hexf h = if h = "" then "-" else h

(* ---- values ---- *)
exception Bad of string

(* split s at top-level occurrences of sep (not inside () or []) *)
let split_top (sep : char) (s : string) : string list =
  if s = "" then [] else begin
    let parts = ref [] and depth = ref 0 and start = ref 0 in
    String.iteri (fun i c ->
      if c = '(' || c = '[' then incr depth
      else if c = ')' || c = ']' then decr depth
      else if c = sep && !depth = 0 then begin parts := String.sub s !start (i - !start) :: !parts; start := i + 1 end) s;
    parts := String.sub s !start (String.length s - !start) :: !parts;
    List.rev !parts
  end

let rec value_of_string (s : string) : value =
  let n = String.length s in
  if n = 0 then raise (Bad "empty value") else
  let inner k = String.sub s k (n - k - 1) in
  match s.[0] with
  | '_' -> VNone
  | 'U' -> VUnit
  | 'T' -> VBool true
  | 'F' -> VBool false
  | 'n' -> VNat (n_of_dec (String.sub s 1 (n - 1)))
  | 'b' -> VBytes (bytes_of_hex (String.sub s 1 (n - 1)))
  | 'N' -> VName (List.map comp_of_string (split_top ',' (inner 2)))
  | 'W' -> (* every segment is followed by a comma *)
      let parts = String.split_on_char ',' (inner 2) in
      let parts = List.filteri (fun i _ -> i < List.length parts - 1) parts in
      VSeq (List.map (fun h -> VBytes (bytes_of_hex h)) parts)
  | 'S' -> VStruct (List.map value_of_string (split_top ';' (inner 2)))
  | 'L' -> VSeq (List.map value_of_string (split_top ';' (inner 2)))
  | 'M' -> VMap (List.map (fun kv ->
             match split_top '=' kv with
             | [k; v] -> (value_of_string k, value_of_string v)
             | _ -> raise (Bad ("map entry " ^ kv))) (split_top ';' (inner 2)))
  | _ -> raise (Bad ("value " ^ s))
and comp_of_string (s : string) : comp =
  match String.index_opt s ':' with
  | Some i -> { ctyp = n_of_dec (String.sub s 0 i); cval = bytes_of_hex (String.sub s (i+1) (String.length s - i - 1)) }
  | None -> raise (Bad ("comp " ^ s))

let rec string_of_value (v : value) : string =
  match v with
  | VNone -> "_"
  | VUnit -> "U"
  | VBool true -> "T"
  | VBool false -> "F"
  | VNat x -> "n" ^ dec_of_n x
  | VBytes b -> "b" ^ hex_of_bytes b
  | VName l -> "N[" ^ String.concat "," (List.map (fun c -> dec_of_n c.ctyp ^ ":" ^ hex_of_bytes c.cval) l) ^ "]"
  | VStruct fs -> "S(" ^ String.concat ";" (List.map string_of_value fs) ^ ")"
  | VSeq l -> "L[" ^ String.concat ";" (List.map string_of_value l) ^ "]"
  | VMap l ->
      let ents = List.map (fun (k, v) -> string_of_value k ^ "=" ^ string_of_value v) l in
      "M[" ^ String.concat ";" (List.sort compare ents) ^ "]"

let fields_of (v : value) : value list = match v with VStruct fs -> fs | _ -> raise (Bad "top value is not a struct")

let rec depth_of (v : value) : int =
  match v with
  | VStruct fs -> 1 + List.fold_left (fun a x -> max a (depth_of x)) 0 fs
  | VSeq l -> 1 + List.fold_left (fun a x -> max a (depth_of x)) 0 l
  | VMap l -> 1 + List.fold_left (fun a (k, x) -> max a (max (depth_of k) (depth_of x))) 0 l
  | _ -> 1

let schema_of (pi : int) : schema = List.nth all_schemas pi

let string_of_out (o : parse_out res) : string * string =
  match o with
  | Ok ((vs, ctx), cov) ->
      ("ok:" ^ string_of_value (VStruct vs),
       String.concat "," (List.map dec_of_z ctx) ^ "/" ^ String.concat "," (List.map (fun b -> hexf (hex_of_bytes b)) cov))
  | Err e -> ("err", "-")
  | Panic w -> ("panic", "-")

let segs_of_string (s : string) : n list list =
  if s = "-" then [] else List.map (fun h -> bytes_of_hex (unhexf h)) (String.split_on_char '|' s)

let stats : (string, int) Hashtbl.t = Hashtbl.create 16
let bump k = Hashtbl.replace stats k (1 + try Hashtbl.find stats k with Not_found -> 0)

let () =
  let lineno = ref 0 in
  let diverge kind m i = Printf.printf "DIVERGE %d %s model=%s impl=%s\n" !lineno kind m i in
  let oracle kind d = Printf.printf "ORACLE %d %s %s\n" !lineno kind d in
  (try
    while true do
      let line = input_line stdin in
      incr lineno;
      (try
        match String.split_on_char ' ' line with
        | ["E"; pi; mi; v; hex; elen] ->
            let sc = schema_of (int_of_string pi) and m = nat_of_int (int_of_string mi) in
            let vs = fields_of (value_of_string v) in
            let fuel = nat_of_int (depth_of (VStruct vs) + 1) in
            let mb = hexf (hex_of_bytes (encode fuel sc m vs)) in
            let ml = dec_of_n (enc_len fuel sc m vs) in
            bump "E";
            if mb <> hex then begin
              (* Go iterates maps in arbitrary order: accept the implementation's bytes if the model decodes them to the
                 same value and re-encodes that (entries in the implementation's order) to exactly these bytes *)
              let perm_ok =
                (try ignore (Str.search_forward (Str.regexp_string "M[") v 0); true with Not_found -> false) &&
                (match decode sc m true (bytes_of_hex (unhexf hex)) with
                 | Ok ((vs', _), _) ->
                     string_of_value (VStruct vs') = string_of_value (VStruct vs) &&
                     hexf (hex_of_bytes (encode fuel sc m vs')) = hex
                 | _ -> false) in
              if perm_ok then bump "E-map-order" else diverge "ENC" mb hex
            end;
            if ml <> elen then diverge "ENCLEN" ml elen;
            (* oracle (encode_length_exact): announced length = bytes produced *)
            if String.length (unhexf hex) / 2 <> int_of_string elen then
              oracle "LEN" (Printf.sprintf "announced=%s produced=%d" elen (String.length (unhexf hex) / 2))
        | ["EW"; pi; mi; v; segs; plan] ->
            (* nocopy models: buffer boundaries of the returned wire and Init's wirePlan *)
            let pii = int_of_string pi in
            let sc = schema_of pii and m = nat_of_int (int_of_string mi) in
            let inc = inc_of (List.nth all_inc pii) in
            let vs = fields_of (value_of_string v) in
            let fuel = nat_of_int (depth_of (VStruct vs) + 2) in
            let ms = encode_wire fuel sc inc m vs in
            let mseg = String.concat "|" (List.map (fun s -> match s with WBuf b | WSlot b | WSig b -> hex_of_bytes b) ms) in
            let mseg = if ms = [] then "-" else if mseg = "" then "|" else mseg in
            let mplan = if ms = [] then "-" else String.concat "," (List.map dec_of_n (wire_plan fuel sc inc m vs)) in
            bump "EW";
            if mseg <> segs then diverge "WIRE" mseg segs;
            if mplan <> plan then diverge "WIREPLAN" mplan plan
        | ["D"; pi; mi; ic; rd; segs; res; aux; expect; tag] ->
            let sc = schema_of (int_of_string pi) and m = nat_of_int (int_of_string mi) in
            let ss = segs_of_string segs in
            let icb = (ic = "1") in
            let out = if rd = "B" then decode sc m icb (List.concat ss) else decode_wire sc m icb ss in
            let (mres, maux) = string_of_out out in
            bump ("D" ^ rd); bump ("res:" ^ (if String.length res >= 2 && String.sub res 0 2 = "ok" then "ok" else res));
            (* allocation upper bound of the model for this input (BufferReader cases of the C04 stream) *)
            if rd = "B" && String.length tag > 6 && (try ignore (Str.search_forward (Str.regexp_string ";alloc=") tag 0); true with Not_found -> false) then
              Printf.printf "ALLOC %d %s\n" !lineno (dec_of_n (decode_alloc sc m icb (List.concat ss)));
            if mres <> res then diverge ("DEC" ^ rd) mres res
            else if aux <> "-" && maux <> aux then diverge ("CTX" ^ rd) maux aux;
            if res = "panic" || res = "timeout" || res = "oom" then oracle ("CRASH:" ^ res) tag;
            (* oracle on the implementation's result *)
            let n = String.length expect in
            if expect = "err" then begin
              if res <> "err" && res <> "panic" && res <> "timeout" && res <> "oom" then oracle "NOTREJECTED" tag
            end else if n > 3 && String.sub expect 0 3 = "rt:" then begin
              let vstr = String.sub expect 3 (n - 3) in
              let vs = fields_of (value_of_string vstr) in
              let fuel = nat_of_int (depth_of (VStruct vs) + 1) in
              if wf_value fuel sc m vs then begin
                bump "rt-wf";
                if res <> "ok:" ^ vstr then oracle "ROUNDTRIP" (Printf.sprintf "%s got=%s" tag res)
              end else bump "rt-nonwf"
            end else if n > 5 && String.sub expect 0 5 = "same:" then begin
              let vstr = String.sub expect 5 (n - 5) in
              let vs = fields_of (value_of_string vstr) in
              let fuel = nat_of_int (depth_of (VStruct vs) + 1) in
              if wf_value fuel sc m vs then begin
                bump "ins-wf";
                if res <> "ok:" ^ vstr then oracle "UNKNOWNSKIP" (Printf.sprintf "%s got=%s" tag res)
              end else bump "ins-nonwf"
            end
        | "HR" :: fn :: rd :: segs :: res :: _ ->
            (* hand-written decoders that have a model: outcome must agree *)
            let ss = segs_of_string segs in
            let flat = List.concat ss in
            let ok_of = function true -> "ok" | false -> "err" in
            let m =
              match fn with
              | "NameFromBytes" -> (match name_from_bytes flat with Ok _ -> "ok" | Err _ -> "err" | Panic _ -> "panic")
              | "ComponentFromBytes" -> (match comp_from_bytes flat with Ok _ -> "ok" | Err _ -> "err" | Panic _ -> "panic")
              | "ParseNat" -> ok_of (parse_nat flat <> None)
              | "ReadName" ->
                  let r = if rd = "B" then
                            (match b_read_name (br_of flat) with HOk (_, _) -> "ok" | HEof _ | HErr _ -> "err" | HPanic _ -> "panic" | HFuel -> "fuel")
                          else
                            (match w_read_name (PW { wsegs = ss; wseg = O; wpos = O }) with HOk (_, _) -> "ok" | HEof _ | HErr _ -> "err" | HPanic _ -> "panic" | HFuel -> "fuel") in
                  r
              | "ReadPacket" | "ReadData" | "ReadInterest" ->
                  (* spec.go glue over the generated Packet parser; the parameters-digest comparison (SHA-256) is an oracle bit:
                     compared only when the outcome does not depend on it *)
                  let pk = int_of_nat (List.nth spec2022_ix 0) in
                  if pk >= List.length all_schemas then "" else begin
                    let sc = schema_of pk and mi = List.nth spec2022_ix 1 and ix = ix_of_list spec2022_ix in
                    let str = function Ok _ -> "ok" | Err _ -> "err" | Panic _ -> "panic" in
                    let run dok =
                      match fn, rd with
                      | "ReadPacket", "B" -> str (read_packet_b ix dok sc mi flat)
                      | "ReadPacket", _ -> str (read_packet_w ix dok sc mi ss)
                      | "ReadData", "B" -> str (read_data_b ix sc mi flat)
                      | "ReadData", _ -> str (read_data_w ix sc mi ss)
                      | "ReadInterest", "B" -> str (read_interest_b ix dok sc mi flat)
                      | _, _ -> str (read_interest_w ix dok sc mi ss) in
                    let a = run true and b = run false in
                    if a = b then a else (bump "H:digest-dependent"; "")
                  end
              | _ -> "" in
            if m <> "" then begin
              bump ("H:" ^ fn); bump ("H:" ^ fn ^ ":" ^ m);
              let r = (match String.index_opt res ':' with Some i -> String.sub res 0 i | None -> res) in
              if m <> r then diverge ("HAND:" ^ fn) m r
            end
        | [""] | [] -> ()
        | _ -> Printf.printf "BADLINE %d %s\n" !lineno (String.sub line 0 (min 100 (String.length line)))
      with Bad s -> Printf.printf "BADLINE %d %s\n" !lineno s
         | Failure s -> Printf.printf "BADLINE %d failure %s\n" !lineno s
         | Not_found -> Printf.printf "BADLINE %d notfound\n" !lineno
         | Invalid_argument s -> Printf.printf "BADLINE %d invalid %s\n" !lineno s)
    done
  with End_of_file -> ());
  Hashtbl.iter (fun k v -> Printf.printf "STAT %s %d\n" k v) stats;
  Printf.printf "DONE %d\n" !lineno
