(* runner/Dv/driver.ml — replays the C18 harness trace on the extracted Coq model (Dv.Model) and evaluates the
   extracted spec oracle (Dv.Spec: adv_ok, table_ok) on the IMPLEMENTATION's observations.
   Input: see harness/dv/dv_test.go.   Output lines:
     DIVERGE <lineno> <case> <field> model=<..> impl=<..>      model and implementation disagree
     ORACLE  <lineno> <case> <which> <detail>                  the implementation's observation violates the spec
     BADCHK  <lineno> <case> <why>                             the harness asked for a check that is not justified
     BADLINE <lineno> <text>
     STAT <cases> <events> <checks>
     DONE <lines> *)
open Dv_model

let rec pos_of_int (i : int) : positive =
  if i = 1 then XH else if i land 1 = 0 then XO (pos_of_int (i lsr 1)) else XI (pos_of_int (i lsr 1))
let n_of_int (i : int) : n = if i = 0 then N0 else Npos (pos_of_int i)
let rec int_of_pos = function XH -> 1 | XO p -> 2 * int_of_pos p | XI p -> 2 * int_of_pos p + 1
let int_of_n = function N0 -> 0 | Npos p -> int_of_pos p
let n10 = n_of_int 10
let n_of_dec_raw (s : string) : n =
  let acc = ref N0 in
  String.iter (fun c -> acc := N.add (N.mul !acc n10) (n_of_int (Char.code c - 48))) s; !acc
let rec dec_of_n_raw (x : n) : string =
  if N.ltb x n10 then string_of_int (int_of_n x)
  else dec_of_n_raw (N.div x n10) ^ string_of_int (int_of_n (N.modulo x n10))
let rec nat_of_int i = if i <= 0 then O else S (nat_of_int (i - 1))
let rec int_of_nat = function O -> 0 | S k -> 1 + int_of_nat k

(* 64-bit ids do not fit OCaml ints: memoise both conversions *)
let tbl_of_dec : (string, n) Hashtbl.t = Hashtbl.create 64
let tbl_to_dec : (n, string) Hashtbl.t = Hashtbl.create 64
let n_of_dec s =
  if s = "" then failwith "empty id" else
  match Hashtbl.find_opt tbl_of_dec s with
  | Some x -> x
  | None -> let x = n_of_dec_raw s in Hashtbl.replace tbl_of_dec s x; Hashtbl.replace tbl_to_dec x s; x
let node_alias s h = Hashtbl.replace tbl_of_dec s h; Hashtbl.replace tbl_to_dec h s
let dec_of_n x =
  match Hashtbl.find_opt tbl_to_dec x with
  | Some s -> s
  | None -> let s = dec_of_n_raw x in Hashtbl.replace tbl_to_dec x s; s

let ncmp a b = match N.compare a b with Eq -> 0 | Lt -> -1 | Gt -> 1
let dashed sep = function [] -> "-" | l -> String.concat sep l
let b01 b = if b then "1" else "0"

(* canonical strings of the model's router *)
let str_nb (r : router) = dashed "," (List.map dec_of_n (List.sort ncmp r.nbrs))
let str_entry (d, (e : entry)) =
  let cs = List.sort (fun (a, _) (b, _) -> ncmp a b) e.costs in
  String.concat "/" [dec_of_n d; dec_of_n e.nh1; dec_of_n e.low1; dec_of_n e.nh2; dec_of_n e.low2; b01 e.dirty;
                     dashed "," (List.map (fun (h, c) -> dec_of_n h ^ "=" ^ dec_of_n c) cs)]
let str_rib (r : router) =
  dashed ";" (List.map str_entry (List.sort (fun (a, _) (b, _) -> ncmp a b) r.rrib))
let str_adv (r : router) =
  let a = List.sort (fun x y -> ncmp x.a_dest y.a_dest) (advert r.rrib) in
  dashed ";" (List.map (fun x -> String.concat "/" [dec_of_n x.a_dest; dec_of_n x.a_nh; dec_of_n x.a_cost; dec_of_n x.a_other]) a)
let str_ent (r : router) =
  let a = List.sort (fun (x, _) (y, _) -> ncmp x y) (rib_entries r.rrib) in
  dashed ";" (List.map (fun (d, (c, h)) -> String.concat "/" [dec_of_n d; dec_of_n c; dec_of_n h]) a)

let split_field prefix s =
  let lp = String.length prefix in
  if String.length s >= lp && String.sub s 0 lp = prefix then String.sub s lp (String.length s - lp)
  else failwith ("expected " ^ prefix)
let items sep s = if s = "-" then [] else String.split_on_char sep s

(* the implementation's observations, parsed *)
let parse_adv s : adv_entry list =
  List.map (fun it -> match String.split_on_char '/' it with
    | [d; nh; c; o] -> { a_dest = n_of_dec d; a_nh = n_of_dec nh; a_cost = n_of_dec c; a_other = n_of_dec o }
    | _ -> failwith "adv item") (items ';' s)
let parse_ent s : (n * (n * n)) list =
  List.map (fun it -> match String.split_on_char '/' it with
    | [d; c; h] -> (n_of_dec d, (n_of_dec c, n_of_dec h))
    | _ -> failwith "ent item") (items ';' s)
let parse_nb s : n list = List.map n_of_dec (items ',' s)
(* the implementation's whole RIB dump as a model-typed rib *)
let parse_rib s : (n * entry) list =
  List.map (fun it -> match String.split_on_char '/' it with
    | [d; h1; l1; h2; l2; dirty; cs] ->
        let costs = List.map (fun c -> match String.split_on_char '=' c with
                      | [h; v] -> (n_of_dec h, n_of_dec v) | _ -> failwith "cost item") (items ',' cs) in
        (n_of_dec d, { costs = costs; nh1 = n_of_dec h1; nh2 = n_of_dec h2; low1 = n_of_dec l1; low2 = n_of_dec l2;
                       dirty = (dirty = "1") })
    | _ -> failwith "rib item") (items ';' s)

let () =
  let lineno = ref 0 and case = ref "-" in
  let pm : pstate ref = ref pinit in
  let last_dirty = ref false in
  let ncases = ref 0 and nevents = ref 0 and nchecks = ref 0 in
  (* implementation side: latest neighbour table and Entries() per router *)
  let impl_nb : (n, n list) Hashtbl.t = Hashtbl.create 16 in
  let impl_ent : (n, (n * (n * n)) list) Hashtbl.t = Hashtbl.create 16 in
  let impl_rt : (n, router) Hashtbl.t = Hashtbl.create 16 in
  let impl_rib : (n, string) Hashtbl.t = Hashtbl.create 16 in
  let impl_rib_at : (n, int) Hashtbl.t = Hashtbl.create 16 in
  let late_pending : (n * string) option ref = ref None in
  let overtake_pending : (n * n) option ref = ref None in
  let rf_seen : (string, string) Hashtbl.t = Hashtbl.create 64 in
  let group_base = ref N0 and group_any = ref false in
  let stale_pending : (n * string) option ref = ref None in
  let held : (n, adv_entry list * int) Hashtbl.t ref = ref (Hashtbl.create 4) in
  let last_ping : (n * n, n) Hashtbl.t = Hashtbl.create 16 in          (* (i, j) -> clock of the last Sync Interest of j at i *)
  let sweep_pending : (n * n * n list) option ref = ref None in          (* router, dead interval, neighbours before *)
  (* round counting since the last topology change *)
  let proto = ref false in
  let phys : (n, n list) Hashtbl.t = Hashtbl.create 16 in
  let rounds = ref 0 and pending : (n * n) list ref = ref [] and clean = ref true in
  (* ev lines so far, index at which the current round started, stored advertisements (sender -> adv, stamp) *)
  let evc = ref 0 and round_start = ref 0 and delivered = ref false in
  let slots : (n, adv_entry list * int) Hashtbl.t = Hashtbl.create 16 in
  let reset_rounds () = rounds := 0; round_start := !evc; pending := all_pairs (topo_of !pm.base) in
  let served i j =
    pending := List.filter (fun (a, b) -> not (N.eqb a i && N.eqb b j)) !pending;
    if !pending = [] then begin
      let ps = all_pairs (topo_of !pm.base) in
      if ps <> [] then begin incr rounds; round_start := !evc; pending := ps end
    end in
  let diverge f m i = Printf.printf "DIVERGE %d %s %s model=%s impl=%s\n" !lineno !case f m i in
  let oracle w d = Printf.printf "ORACLE %d %s %s %s\n" !lineno !case w d in
  let apply (e : pevent) (topo_change : bool) =
    incr nevents;
    let before = topo_of !pm.base in
    let (m', d) = pstep !pm e in
    pm := m'; last_dirty := d;
    if topo_change && topo_of m'.base <> before then begin
      if !delivered then clean := false;   (* a Deliver before a topology change is part of the history *)
      reset_rounds ()
    end in
  (try
    while true do
      let line = input_line stdin in
      incr lineno;
      (try
      match String.split_on_char ' ' line with
      | "case" :: k :: kind :: _ ->
          incr ncases; case := k ^ ":" ^ kind; pm := pinit; held := Hashtbl.create 4; Hashtbl.reset last_ping; Hashtbl.reset impl_nb; Hashtbl.reset impl_ent; Hashtbl.reset impl_rt; Hashtbl.reset impl_rib; late_pending := None;
          clean := true; evc := 0; delivered := false; Hashtbl.reset slots; reset_rounds (); proto := (kind = "proto"); Hashtbl.reset phys;
          Hashtbl.reset tbl_of_dec; Hashtbl.reset tbl_to_dec
      | "node" :: a :: h :: _ -> node_alias a (n_of_dec_raw h)
      | ["ev"; "rup"; i] -> incr evc; apply (PBase (RouterUp (n_of_dec i))) true
      | ["ev"; "rdown"; i] ->
          let i = n_of_dec i in
          incr evc; clean := false; Hashtbl.remove impl_nb i; Hashtbl.remove impl_ent i; Hashtbl.remove impl_rt i; Hashtbl.remove impl_rib i;
          apply (PBase (RouterDown i)) true
      | ["ev"; "up"; i; j] -> incr evc; apply (PBase (NbrUp (n_of_dec i, n_of_dec j))) true
      | ["ev"; "dead"; i; j] ->
          let i = n_of_dec i in
          incr evc; clean := false;
          group_base := sget i !pm.myseq;
          apply (PBase (NbrDead (i, n_of_dec j))) true;
          group_any := !last_dirty
      | ["ev"; "deadmore"; i; j] ->
          (* further victims of the same sweep: checkDeadNeighbors notifies once for all of them *)
          let i = n_of_dec i in
          incr evc; clean := false;
          apply (PBase (NbrDead (i, n_of_dec j))) true;
          group_any := !group_any || !last_dirty;
          let p = !pm in
          pm := { p with myseq = sset i (if !group_any then N.add !group_base (n_of_int 1) else !group_base) p.myseq }
      | ["ev"; "fetch"; i; j] ->
          let i = n_of_dec i and j = n_of_dec j in
          incr evc;
          apply (PBase (Fetch (i, j))) false;
          served i j
      | ["ev"; ("late" | "laterace"); i; j] ->
          let i = n_of_dec i and j = n_of_dec j in
          incr evc;
          (* the before/after comparison needs a dump taken after the sweep; in the real interleaving (evDeadLateRace) the two
             run concurrently and there is none: there the route_via_non_neighbour oracle and the model decide *)
          late_pending := (match Hashtbl.find_opt impl_rib i, Hashtbl.find_opt impl_rib_at i with
                           | Some prev, Some at when at = !evc - 1 -> Some (i, prev) | _ -> None);
          let adv = match getr !pm.base j with Some r -> advert r.rrib | None -> [] in
          apply (PBase (LateUpdate (i, j, adv))) false
      | ["ev"; "clock"; t] -> incr evc; apply (PClock (n_of_dec_raw t)) false
      | ["ev"; "sync"; i; j; sq] ->
          let i = n_of_dec i and j = n_of_dec j in
          incr evc;
          Hashtbl.replace last_ping (i, j) !pm.now;
          apply (PSync (i, j, n_of_dec_raw sq)) true
      | ["ev"; ("data" | "olddata") as kind; i; j; sq] ->
          let i = n_of_dec i and j = n_of_dec j and sq = n_of_dec_raw sq in
          incr evc;
          let src = if kind = "data" then slots else !held in
          (match Hashtbl.find_opt src j with
           | None -> Printf.printf "BADLINE %d data without stored advertisement\n" !lineno
           | Some (adv, stamp) ->
               let accepted = ptrace !pm (PData (i, j, sq, adv)) <> [] in
               if not accepted then
                 stale_pending := (match Hashtbl.find_opt impl_rib i with Some prev -> Some (i, prev) | None -> None);
               apply (PData (i, j, sq, adv)) false;
               if accepted then begin
                 delivered := true;
                 if stamp < !round_start then begin clean := false; reset_rounds () end else served i j
               end)
      | ["ev"; ("nack" | "ftimeout"); i; j; sq] ->
          incr evc;
          apply (PFetchFail (n_of_dec i, n_of_dec j, n_of_dec_raw sq)) false
      | ["rft"; i; j; sq; again] ->
          incr nchecks;
          let i = n_of_dec i and j = n_of_dec j and sq = n_of_dec_raw sq in
          (* a failed fetch for the neighbour's current sequence number must be expressed again *)
          let current = (match getr !pm.base i with Some r -> List.exists (N.eqb j) r.nbrs | None -> false)
                        && N.eqb (pget (i, j) !pm.nseq) sq && N.eqb (pget (i, j) !pm.fetching) sq in
          if current && again <> "1" then
            oracle "fetch_not_retried" (Printf.sprintf "router=%s neighbour=%s seq=%s: the failed advertisement fetch was not expressed again within 2.5 s although the sequence number is still the neighbour's latest"
              (dec_of_n i) (dec_of_n j) (dec_of_n_raw sq))
      | ["ev"; "overtake"; i; j] ->
          (* an update that started with an older advertisement applies the one current when it holds the lock *)
          let i = n_of_dec i and j = n_of_dec j in
          incr evc;
          (match Hashtbl.find_opt slots j with
           | None -> Printf.printf "BADLINE %d overtake without stored advertisement\n" !lineno
           | Some (adv, stamp) ->
               delivered := true;
               apply (PBase (Deliver (i, j, adv))) false;
               overtake_pending := Some (i, j);
               if stamp < !round_start then begin clean := false; reset_rounds () end else served i j)
      | ["ev"; "hold"; j] ->
          let j = n_of_dec j in
          incr evc;
          (match Hashtbl.find_opt slots j with Some v -> Hashtbl.replace !held j v | None -> ())
      | ["ev"; "sweep"; i; dead] ->
          let i = n_of_dec i and dead = n_of_dec_raw dead in
          incr evc; clean := false;
          sweep_pending := Some (i, dead, (try Hashtbl.find impl_nb i with Not_found -> []));
          apply (PSweep (i, dead)) true
      | ["ev"; "snap"; j] ->
          let j = n_of_dec j in
          incr evc;
          (match getr !pm.base j with
           | Some r -> Hashtbl.replace slots j (advert r.rrib, !evc)
           | None -> Printf.printf "BADLINE %d snap of a router the model does not have\n" !lineno)
      | ["ev"; "deliver"; i; j] ->
          let i = n_of_dec i and j = n_of_dec j in
          incr evc;
          (match Hashtbl.find_opt slots j with
           | None -> Printf.printf "BADLINE %d deliver without snapshot\n" !lineno
           | Some (adv, stamp) ->
               delivered := true;
               apply (PBase (Deliver (i, j, adv))) false;
               (* a round may only use advertisements generated within it (Conv.around); an older one voids the count *)
               if stamp < !round_start then begin clean := false; reset_rounds () end
               else served i j)
      | "obs" :: i :: d :: nb :: rib :: adv :: ent :: rest ->
          let i = n_of_dec i in
          let sq = match rest with x :: _ -> Some (split_field "sq=" x) | _ -> None in
          let ms = match rest with [_; y] -> Some (split_field "ms=" y) | _ -> None in
          let nb = split_field "nb=" nb and rib = split_field "rib=" rib
          and adv = split_field "adv=" adv and ent = split_field "ent=" ent in
          (* oracle on the implementation's own advertisement *)
          let iadv = parse_adv adv in
          if not (adv_ok iadv) then oracle "adv_ok" ("router=" ^ dec_of_n i ^ " adv=" ^ adv);
          Hashtbl.replace impl_nb i (parse_nb nb);
          Hashtbl.replace impl_ent i (parse_ent ent);
          Hashtbl.replace impl_rt i { self = i; rrib = parse_rib rib; nbrs = parse_nb nb };
          (* a late ribUpdate on a removed neighbour's object must leave the implementation's RIB exactly as it was *)
          (* no usable route through somebody who is not in the neighbour table (hops_okb on the implementation's dump) *)
          (let ri = { self = i; rrib = parse_rib rib; nbrs = parse_nb nb } in
           if not (hops_okb ri) then
             oracle "route_via_non_neighbour" ("router=" ^ dec_of_n i ^ " nb=" ^ nb ^ " rib=" ^ rib));
          (* an overtaken update must have applied the advertisement current at lock time *)
          (match !overtake_pending with
           | Some (i', j) when N.eqb i' i ->
               overtake_pending := None;
               (match getr !pm.base i with
                | Some mr ->
                    let ir = parse_rib rib in
                    let dests = List.map fst ir @ List.map fst mr.rrib in
                    let bad = List.filter (fun d -> not (N.eqb (cost_via ir d j) (cost_via mr.rrib d j))) dests in
                    if bad <> [] then
                      oracle "stale_snapshot_applied" (Printf.sprintf "router=%s neighbour=%s: costs through it for %s are not those of the advertisement that was current when the update held the lock; rib=%s"
                        (dec_of_n i) (dec_of_n j) (String.concat "," (List.map dec_of_n bad)) rib)
                | None -> ())
           | _ -> ());
          (* advertisement Data that the protocol must ignore leaves the implementation's RIB exactly as it was *)
          (match !stale_pending with
           | Some (i', prev) when N.eqb i' i ->
               stale_pending := None;
               if prev <> rib then oracle "stale_data_changed_state" ("router=" ^ dec_of_n i ^ " before=" ^ prev ^ " after=" ^ rib)
           | _ -> ());
          (* a neighbour heard from within the dead interval must survive the sweep *)
          (match !sweep_pending with
           | Some (i', dead, before) when N.eqb i' i ->
               sweep_pending := None;
               let after = parse_nb nb in
               List.iter (fun j ->
                 match Hashtbl.find_opt last_ping (i, j) with
                 | Some t when N.leb !pm.now (N.add t dead) && not (List.exists (N.eqb j) after) ->
                     oracle "live_neighbour_declared_dead" (Printf.sprintf "router=%s neighbour=%s last Sync Interest at %s, sweep at %s, dead interval %s"
                       (dec_of_n i) (dec_of_n j) (dec_of_n_raw t) (dec_of_n_raw !pm.now) (dec_of_n_raw dead))
                 | _ -> ()) before
           | _ -> ());
          (match !late_pending with
           | Some (i', prev) when N.eqb i' i ->
               late_pending := None;
               if prev <> rib then oracle "late_update_changed_state" ("router=" ^ dec_of_n i ^ " before=" ^ prev ^ " after=" ^ rib)
           | _ -> ());
          Hashtbl.replace impl_rib i rib; Hashtbl.replace impl_rib_at i !evc;
          if !proto then () else begin
          (match getr !pm.base i with
           | None -> diverge "router" "absent" "present"
           | Some r ->
               if str_nb r <> nb then diverge "nb" (str_nb r) nb;
               if str_rib r <> rib then diverge "rib" (str_rib r) rib;
               if str_adv r <> adv then diverge "adv" (str_adv r) adv;
               if str_ent r <> ent then diverge "ent" (str_ent r) ent;
               (match sq with
                | Some sq ->
                    let m = dashed "," (List.map (fun j -> dec_of_n j ^ ":" ^ dec_of_n_raw (pget (i, j) !pm.nseq)) (List.sort ncmp r.nbrs)) in
                    if m <> sq then diverge "seq" m sq
                | None -> ());
               (match ms with
                | Some ms -> let m = dec_of_n_raw (sget i !pm.myseq) in if m <> ms then diverge "myseq" m ms
                | None -> ());
               if d <> "x" && d <> b01 !last_dirty then diverge "dirty" (b01 !last_dirty) d) end
      | [("chk" | "chkclean") as kind; _r] ->
          incr nchecks;
          (* the topology as the implementation reported it *)
          let g = List.sort (fun (a, _) (b, _) -> ncmp a b) (Hashtbl.fold (fun i l acc -> (i, l) :: acc) impl_nb []) in
          let gm = List.sort (fun (a, _) (b, _) -> ncmp a b) (List.map (fun (i, l) -> (i, List.sort ncmp l)) (topo_of !pm.base)) in
          if g <> gm then diverge "topology" "-" "-";
          if not (settled g) then Printf.printf "BADCHK %d %s not-settled\n" !lineno !case
          else begin
            (* largest finite distance below INF *)
            (* largest finite distance below INF (Spec.maxdist, the bound in the theorems) *)
            let md = int_of_nat (maxdist g) in
            let need = if kind = "chk" then int_of_n iNF + md else md in
            if kind = "chkclean" && not !clean then Printf.printf "BADCHK %d %s not-clean\n" !lineno !case
            else if !rounds < need && all_pairs g <> [] then Printf.printf "BADCHK %d %s rounds=%d need=%d\n" !lineno !case !rounds need
            else
              List.iter (fun (i, _) ->
                let tbl = try Hashtbl.find impl_ent i with Not_found -> [] in
                if not (table_okw g i tbl) then
                  oracle "table_ok" (Printf.sprintf "router=%s rounds=%d table=%s" (dec_of_n i) !rounds
                    (dashed ";" (List.map (fun (d, (c, h)) -> String.concat "/" [dec_of_n d; dec_of_n c; dec_of_n h]) tbl)))) g
          end
      | ["chkpair"; i; j] ->
          incr nchecks;
          let i = n_of_dec i and j = n_of_dec j in
          (* on the implementation's own dumps: what i stores through j is what j's current advertisement offers *)
          (match Hashtbl.find_opt impl_rt i, Hashtbl.find_opt impl_rt j with
           | Some ri, Some rj ->
               if List.exists (N.eqb j) ri.nbrs then begin
                 let dests = List.map fst ri.rrib @ List.map fst rj.rrib in
                 let bad = List.filter (fun d -> not (N.eqb (cost_via ri.rrib d j) (offered i rj.rrib d))) dests in
                 if bad <> [] then
                   oracle "restart_not_noticed" (Printf.sprintf "router=%s neighbour=%s (restarted): stored costs through it differ from what it now offers for %s; known seq=%s table=%s"
                     (dec_of_n i) (dec_of_n j) (String.concat "," (List.map dec_of_n bad)) (dec_of_n_raw (pget (i, j) !pm.nseq)) (str_ent ri))
               end
           | _ -> ())
      | ["chkquiet"] ->
          incr nchecks;
          (* the implementation's own state, as dumped, taken as a network state of the model's type *)
          let si = List.sort (fun a b -> ncmp a.self b.self) (Hashtbl.fold (fun _ r acc -> r :: acc) impl_rt []) in
          if not (settled (topo_of si)) then Printf.printf "BADCHK %d %s not-settled\n" !lineno !case
          else if not (fixedb si) then
            oracle "quiet_not_fixed" "the implementation announced nothing more, yet some router has not processed a neighbour's current advertisement"
          else if not (convergedw si) then
            oracle "quiet_not_converged" (String.concat " | " (List.map (fun r -> dec_of_n r.self ^ ": " ^ str_ent r) si))
      | ["chkfixed"; _r] ->
          incr nchecks;
          let si = List.sort (fun a b -> ncmp a.self b.self) (Hashtbl.fold (fun _ r acc -> r :: acc) impl_rt []) in
          let g = topo_of si in
          if not (settled g) then Printf.printf "BADCHK %d %s not-settled\n" !lineno !case
          else begin
            let need = 2 * int_of_n iNF + int_of_nat (maxdist g) + 1 in
            if !rounds < need && all_pairs g <> [] then Printf.printf "BADCHK %d %s rounds=%d need=%d\n" !lineno !case !rounds need
            else if not (fixedb si) then
              oracle "not_fixed_after_bound" (Printf.sprintf "rounds=%d: some router's stored costs are not what its neighbour's current advertisement yields" !rounds)
            else if not (convergedw si) then
              oracle "fixed_not_converged" (String.concat " | " (List.map (fun r -> dec_of_n r.self ^ ": " ^ str_ent r) si))
          end
      | ("rf" | "rfre") as kind :: cs :: res :: rest ->
          (* refresh on the implementation. What the property demands: (a) the two chosen hops carry the two least costs,
             (b) the choice is a function of the cost map (same result whenever the same map is seen again, whatever the
             map iteration order), (c) re-delivering an unchanged advertisement reports no change.  Which of several
             equal-cost hops wins is NOT demanded; agreement with the model (whose tie direction is measured) is a
             correspondence matter. *)
          incr nchecks;
          let costs = List.map (fun c -> match String.split_on_char '=' c with
                        | [h; v] -> (n_of_dec_raw h, n_of_dec_raw v) | _ -> failwith "rf cost") (items ',' cs) in
          let inf = iNF in
          (match String.split_on_char '/' res with
           | [h1; l1; h2; l2] ->
               let h1 = n_of_dec_raw h1 and l1 = n_of_dec_raw l1 and h2 = n_of_dec_raw h2 and l2 = n_of_dec_raw l2 in
               let finite = List.filter (fun (_, c) -> N.ltb c inf) costs in
               let minc l = List.fold_left (fun acc (_, c) -> if N.ltb c acc then c else acc) inf l in
               let m1 = minc finite in
               let ok1 = if N.eqb m1 inf then N.eqb l1 inf
                         else N.eqb l1 m1 && List.exists (fun (h, c) -> N.eqb h h1 && N.eqb c m1) finite in
               let others = List.filter (fun (h, _) -> not (N.eqb h h1)) finite in
               let m2 = minc others in
               let ok2 = if N.eqb m2 inf then N.eqb l2 inf
                         else N.eqb l2 m2 && not (N.eqb h2 h1) && List.exists (fun (h, c) -> N.eqb h h2 && N.eqb c m2) others in
               if not (ok1 && ok2) then
                 oracle "refresh_not_two_least" (Printf.sprintf "costs=%s implementation=%s: the chosen next hops do not carry the two least costs" cs res)
           | _ -> failwith "rf result");
          (match Hashtbl.find_opt rf_seen cs with
           | Some prev when prev <> res ->
               oracle "refresh_unstable" (Printf.sprintf "the same cost map gave two different results: costs=%s first=%s now=%s (the result depends on the map iteration order)" cs prev res)
           | Some _ -> ()
           | None -> Hashtbl.replace rf_seen cs res);
          if kind = "rfre" && rest <> ["0"] then
            oracle "refresh_unstable" (Printf.sprintf "re-delivery of an unchanged advertisement reported a change: costs=%s result=%s" cs res);
          let (((l1, h1), l2), h2) = refresh_fold costs in
          let m = String.concat "/" [dec_of_n_raw h1; dec_of_n_raw l1; dec_of_n_raw h2; dec_of_n_raw l2] in
          if m <> res then diverge "refresh" m res
      | "noquiet" :: n :: _ -> oracle "no_quiescence" ("the notification-driven schedule did not come to rest within " ^ n ^ " fetches")
      | ["phys"; i; nb] -> Hashtbl.replace phys (n_of_dec i) (parse_nb (split_field "nb=" nb))
      | ["chkphys"; _w] ->
          incr nchecks;
          (* protocol level: after waiting, the neighbour tables must be the physical topology and every table
             the shortest-path table of it *)
          let srt l = List.sort (fun (a, _) (b, _) -> ncmp a b) (List.map (fun (i, l) -> (i, List.sort ncmp l)) l) in
          let g = srt (Hashtbl.fold (fun i l acc -> (i, l) :: acc) phys []) in
          let gi = srt (Hashtbl.fold (fun i l acc -> (i, l) :: acc) impl_nb []) in
          let show g = String.concat " " (List.map (fun (i, l) -> dec_of_n i ^ ":" ^ dashed "," (List.map dec_of_n l)) g) in
          if g <> gi then oracle "neighbours" (Printf.sprintf "physical=[%s] tables=[%s]" (show g) (show gi));
          List.iter (fun (i, _) ->
            let tbl = try Hashtbl.find impl_ent i with Not_found -> [] in
            if not (table_okw g i tbl) then
              oracle "table_ok_proto" (Printf.sprintf "router=%s physical=[%s] table=%s" (dec_of_n i) (show g)
                (dashed ";" (List.map (fun (d, (c, h)) -> String.concat "/" [dec_of_n d; dec_of_n c; dec_of_n h]) tbl)))) g;
          (* after the long wait every router has processed the current advertisement of each neighbour *)
          (let si = List.sort (fun a b -> ncmp a.self b.self) (Hashtbl.fold (fun _ r acc -> r :: acc) impl_rt []) in
           if g = gi && settled (topo_of si) && not (fixedb si) then
             oracle "proto_not_fixed" (String.concat " | " (List.map (fun r -> dec_of_n r.self ^ ": " ^ str_rib r) si)));
          Hashtbl.reset phys; Hashtbl.reset impl_nb; Hashtbl.reset impl_ent; Hashtbl.reset impl_rt
      | ["quiet"; i; s0; s1; nb0; nb1; secs] ->
          incr nchecks;
          (* stable links, every heartbeat delivered: nothing may be withdrawn or changed *)
          if s0 <> s1 || nb0 <> nb1 then
            oracle "table_changed_while_quiet" (Printf.sprintf "router=%s during %s s without any physical change: sequence number %s -> %s, neighbour table %s -> %s" i secs s0 s1 nb0 nb1)
      | ["hb"; i; gap; sync; dead; jit] ->
          incr nchecks;
          (* the premise of quiet_live_neighbour_never_dead / heartbeats_survive_every_sweep, observed: heartbeat period + latency variation < dead interval *)
          if int_of_string gap + int_of_string jit >= int_of_string dead then
            oracle "heartbeat_too_slow" (Printf.sprintf "router=%s largest gap between its Sync Interests %s ms + latency variation %s ms >= dead interval %s ms (advertise interval %s ms)" i gap jit dead sync)
      | "overrun" :: n :: _ -> oracle "no_quiescence_proto" ("more than " ^ n ^ " Interests expressed in one case")
      | "stat" :: _ -> ()
      | ["end"] -> ()
      | "harnessfail" :: rest -> oracle "harness" (String.concat " " rest)
      | [""] | [] -> ()
      | _ -> Printf.printf "BADLINE %d %s\n" !lineno line
      with Failure m -> Printf.printf "BADLINE %d (%s) %s\n" !lineno m line)
    done
  with End_of_file -> ());
  Printf.printf "STAT %d %d %d\n" !ncases !nevents !nchecks;
  Printf.printf "DONE %d\n" !lineno
